/* C20 / request line: http_parse_req_line() on a line assembled by the harness from RFC 7230 / RFC 3986 parts.
 *
 * Shape (all concrete, from jobs.py):
 *   FORM      0 origin-form, 1 absolute-form, 2 authority-form (CONNECT), 3 asterisk-form
 *   T_METHOD  template of the method (a table method literally, or e.g. "%A%t%t" = unknown token of that length)
 *   T_SCHEME  (FORM 1) scheme template, e.g. "http" / "https" / "%a%s"
 *   T_AUTH    (FORM 1, 2) authority template, e.g. "%h%h:%d%d"
 *   T_PATH    (FORM 0, 1) path template: '/' literal, segment bytes "%p" (or "%%%x%x" = a pct-encoded triplet)
 *   HAS_QUERY 0/1, T_QUERY query template ("%q...")
 *   T_VER     version template (default "HTTP/%d.%d")
 *   T_TAIL    what follows the line: "" (buffer ends with the line) or "\r\n%b%b..." (CRLF + arbitrary bytes)
 *   TOTAL     total number of bytes (computed by jobs.py; cross-checked here), NSYM number of symbolic bytes
 *
 * Expectation = RFC 7230 section 3.1.1 / 5.3 + RFC 3986 section 3 delimiting, as positions the harness recorded
 * while writing the text.  Path: "up to the library's documented trimming": the comments in http_parse_req_line say
 * "Skip slash~s from head" (always) and "Remove slash~s from tail" (written in the no-query branch only), so
 *   start == last '/' of the leading run of slashes;  end == path end minus trailing slashes (never below start+1)
 *   when there is no query, and anywhere between that and the RFC path end when there is a query.
 */
#include "verif.h"
#include "common/libcenv/libc_env.h"
#include <errno.h>
#include "proto/http.c"
#include "tmpl.h"

#ifndef T_VER
#define T_VER "HTTP/%d.%d"
#endif
#ifndef T_TAIL
#define T_TAIL "\r\n"
#endif
#ifndef T_SCHEME
#define T_SCHEME ""
#endif
#ifndef T_AUTH
#define T_AUTH ""
#endif
#ifndef T_PATH
#define T_PATH ""
#endif
#ifndef T_QUERY
#define T_QUERY ""
#endif
#ifndef HAS_QUERY
#define HAS_QUERY 0
#endif

struct in_s { uint8_t sym[NSYM + 1]; };
#include "verif_in.h"

static const char *const ref_methods[14] = { 0, "OPTIONS", "GET", "HEAD", "POST", "PUT", "DELETE", "TRACE", "CONNECT",
	"NOTIFY", "M-SEARCH", "M-POST", "SUBSCRIBE", "UNSUBSCRIBE" };
static const size_t ref_methods_len[14] = { 0, 7, 3, 4, 4, 3, 6, 5, 7, 6, 8, 6, 9, 11 };

static uint32_t ref_method_code(const uint8_t *m, size_t n) {
	for (uint32_t k = 1; k < 14; k++) {
		if (ref_methods_len[k] != n) continue;
		size_t j = 0;
		while (j < n && m[j] == (uint8_t)ref_methods[k][j]) j++;
		if (j == n) return (k);
	}
	return (0);
}

static int has_cs(const uint8_t *b, size_t from, size_t to) { /* "://" inside [from,to) */
	for (size_t i = from; i + 3 <= to; i++) {
		if (b[i] == ':' && b[i + 1] == '/' && b[i + 2] == '/') return (1);
	}
	return (0);
}

void harness(void) {
	V_BEGIN();
	static uint8_t buf_store[TOTAL];	/* exactly sized object (static: CBMC constant-propagates through it, unlike malloc) */
	uint8_t *buf = buf_store;
	size_t pos = 0, si = 0;

	T_EMIT(buf, pos, T_METHOD, IN.sym, si);
	size_t m1 = pos;
	buf[pos++] = ' ';
	size_t u0 = pos, s1 = 0, a0 = 0, a1 = 0, p0 = 0, p1 = 0, q0 = 0, q1 = 0;
#if FORM == 1
	T_EMIT(buf, pos, T_SCHEME, IN.sym, si);
	s1 = pos;
	buf[pos++] = ':'; buf[pos++] = '/'; buf[pos++] = '/';
#endif
#if FORM == 1 || FORM == 2
	a0 = pos;
	T_EMIT(buf, pos, T_AUTH, IN.sym, si);
	a1 = pos;
#endif
#if FORM == 0 || FORM == 1
	p0 = pos;
	T_EMIT(buf, pos, T_PATH, IN.sym, si);
	p1 = pos;
#if HAS_QUERY
	buf[pos++] = '?';
	q0 = pos;
	T_EMIT(buf, pos, T_QUERY, IN.sym, si);
	q1 = pos;
#endif
#endif
#if FORM == 3
	buf[pos++] = '*';
#endif
	size_t u1 = pos;
	buf[pos++] = ' ';
	size_t v0 = pos;
	T_EMIT(buf, pos, T_VER, IN.sym, si);
	size_t lend = pos;
	T_EMIT(buf, pos, T_TAIL, IN.sym, si);
	V_ASSERT(pos == TOTAL && si == NSYM, "harness self-check: jobs.py computed the sizes of the templates correctly");

	uint32_t exp_code = ref_method_code(buf, m1);
#if FORM == 2
	V_ASSUME(exp_code == 8);	/* authority-form is only used with CONNECT */
#else
	V_ASSUME(exp_code != 8);
#endif
#if FORM == 0
	/* origin-form = absolute-path [ "?" query ], absolute-path = 1*( "/" segment ) */
	V_ASSUME(p1 > p0 && buf[p0] == '/');
#endif
#ifdef KF_REQLINE_ORIGIN_SCHEME
	/* known finding: "://" inside the path or query of an origin-form target is taken for a scheme separator */
	if (FORM == 0) V_ASSUME(!has_cs(buf, u0, u1));
#endif
#ifdef KF_REQLINE_AUTH_QUERY
	/* known finding: in absolute-form the authority is only ended by "/", not by "?" (empty path + query) */
	if (FORM == 1 && HAS_QUERY) V_ASSUME(p1 > p0);
#endif

	http_req_line_data_t d;
	memset(&d, 0xa5, sizeof(d));
	int r = http_parse_req_line(buf, TOTAL, &d);
#ifdef EXPECT_EBADMSG
	V_ASSUME(!(buf[0] >= 'A' && buf[0] <= 'Z'));
	/* documented quick reject: first byte of the method must be an upper-case letter */
	V_ASSERT(r == EBADMSG, "method not starting with A-Z is refused with EBADMSG");
	V_WITNESS("refused method");
	return;
#endif
	V_ASSERT(r == 0, "well-formed request line is accepted");
	if (r != 0) return;
	V_ASSERT(d.line_size == lend, "line_size = bytes before the first CRLF (or the whole buffer)");
	V_ASSERT(d.method == buf && d.method_size == m1, "method span = bytes before the first SP");
	V_ASSERT(d.method_code == exp_code, "method_code agrees with the method table (case-sensitive, exact length)");
	V_ASSERT(d.uri == buf + u0 && d.uri_size == u1 - u0, "request-target span = bytes between the two SP");
	V_ASSERT(d.proto_ver == (((uint32_t)(buf[v0 + 5] - '0') << 16) | (uint32_t)(buf[v0 + 7] - '0')),
	    "proto_ver = (major << 16) | minor");
#if FORM == 1
	V_ASSERT(d.scheme == buf + u0 && d.scheme_size == s1 - u0, "scheme span = bytes before \"://\"");
	V_ASSERT(d.host == buf + a0 && d.host_size == a1 - a0, "authority span = after \"://\" up to \"/\", \"?\" or end of target");
#elif FORM == 2
	V_ASSERT(d.scheme_size == 0, "authority-form has no scheme");
	V_ASSERT(d.host == buf + u0 && d.host_size == u1 - u0, "authority-form: authority = whole target");
	V_ASSERT(d.abs_path_size == 0 && d.query_size == 0, "authority-form has no path and no query");
#else
	V_ASSERT(d.scheme_size == 0, "origin-/asterisk-form has no scheme");
	V_ASSERT(d.host_size == 0, "origin-/asterisk-form has no authority");
#endif
#if FORM == 3
	V_ASSERT(d.abs_path == buf + u0 && d.abs_path_size == 1 && d.query_size == 0, "asterisk-form: target \"*\" reported, no query");
#endif
#if FORM == 0 || FORM == 1
#if HAS_QUERY
	V_ASSERT(d.query == buf + q0 && d.query_size == q1 - q0, "query span = after the first \"?\" up to the end of the target");
#else
	V_ASSERT(d.query_size == 0, "no \"?\" => no query");
#endif
	if (p1 == p0) {
		V_ASSERT(d.abs_path_size == 0, "empty path (absolute-form without path) reported as empty");
		V_ASSERT(d.abs_path >= buf + u0 && d.abs_path <= buf + u1, "empty path pointer stays inside the target");
		V_WITNESS("empty path");
	} else {
		size_t lead = p0;
		while (lead + 1 < p1 && buf[lead + 1] == '/') lead++;
		size_t end = p1;
		while (end - 1 > lead && buf[end - 1] == '/') end--;
		V_ASSERT(d.abs_path == buf + lead, "path starts at the last slash of the leading run of slashes");
#if HAS_QUERY
		V_ASSERT(d.abs_path_size >= end - lead && d.abs_path_size <= p1 - lead,
		    "path ends at the RFC path end, possibly minus trailing slashes");
#else
		V_ASSERT(d.abs_path_size == end - lead, "path ends at the RFC path end minus trailing slashes");
#endif
		if (lead != p0) V_WITNESS("leading slashes trimmed");
		if (end != p1) V_WITNESS("trailing slashes present");
	}
#endif
	if (exp_code == 0) V_WITNESS("unknown method");
	V_WITNESS("accepted, all spans as expected");
}
