import os
SOLVER = os.environ.get("C20_SOLVER", "cadical")

META = {
    "bounds": "template-symbolic inputs: the structure of each text (which parts, how long) is the job's concrete shape, every "
              "'%x' position is a solver variable over the RFC 3986 / RFC 7230 character class x. "
              "Request line (http_parse_req_line, http_get_method_fast): all 13 table methods + unknown tokens of 2..10 "
              "(thorough 1..12) bytes; origin-form with 11 (thorough 17) slash arrangements (leading/doubled/trailing slashes, "
              "pct-triplets, segments <= 3 bytes), query 0..4 bytes; absolute-form (http/https/generic scheme <= 4 bytes, "
              "authority <= 4 bytes, with/without path and query); authority-form (CONNECT); asterisk-form; line ending with CRLF, "
              "CRLF + <= 6 arbitrary bytes, or the end of the buffer; <= 40 bytes. Status line: reason-phrase 0..8 bytes. "
              "Header lookup (http_hdr_val_get_ex/_get/_get_count): <= 3 fields, block <= 45 bytes, symbolic letter case / "
              "token bytes in the looked-up name (and in the block for <= 2 name bytes), values <= 3 symbolic bytes with "
              "symbolic/literal OWS, obs-folds at the start / middle / end of a value, block with and without final CRLF. "
              "http_req_sec_chk: <= 3 fields with literal names (enumerated presence/spelling of Host, Content-Length, "
              "Transfer-Encoding), symbolic values, arbitrary ('%b') bytes in line / name / value, symbolic method code 0..13; "
              "oracle computed from the construction. Query (http_query_val_get_ex/_get/_del): <= 3 k=v pairs, <= 12 bytes. "
              "Build variants: real Linux feature macros (libc memmem/memchr/strncasecmp) and, for a few shapes, liblcb's own "
              "fallback memmem/mem_cmpi (LCB_FALLBACK).",
    "outside": "longer texts and more fields than listed; header blocks with > 2 adjacent symbolic bytes or symbolic bytes in "
               "front of the colon of more than one field (symbolic execution cannot use the class assumptions, every such byte "
               "is a potential ':' / CR and the nested mem_find loops explode: measured > 8 GB); field names of "
               "http_req_sec_chk with symbolic case only for Host (thorough); method tokens that do not start with A-Z are "
               "refused by the library by design (asserted as EBADMSG, not as a finding); obs-text (>= 0x80) and DEL in header "
               "blocks count as 'control bytes' per the library's documented rule 2 (asserted as rejected); whitespace other "
               "than SP before the colon (HTAB) is not one of the listed patterns and is not decided; single-byte edits that "
               "break the request-line grammar (only sub-span safety could be asserted; memory safety of malformed input is "
               "C13's obligation); http_hdr_val_remove, http_data_decode_chunked, http_url_decode, wsp2sp/ht2sp are not part of "
               "the property; query pairs without '=' or with an empty key",
    "assumptions": [
        "libc: memchr/memrchr/strnlen bodies of /verif/lib/libc_models.h, CBMC's built-in strncasecmp/memcmp/memmove, and "
        "harness/common/libcenv/libc_env.h:v_memmem (CBMC-only body for memmem, same man-page contract as libc_models.h but "
        "with the full-match test inside the comparison loop so that symbolic execution does not invent matches); natively "
        "the real glibc functions",
        "header blocks without a final CRLF are followed by the CRLFCRLF of the receive buffer inside the same object "
        "(PAD=4), exactly as http_server.c calls these functions (hdr_size stops before CRLFCRLF); blocks with a final CRLF "
        "and all request/status lines and queries are exactly sized objects",
        "CBMC's 'pointer relation: pointer outside object bounds' check is excluded in hdr/sec/query jobs (mem_chr_ptr is "
        "handed end+2 after a non-matching last field; not observable natively; memory safety of these parsers is C13)",
        "a header block whose LAST field has an empty / all-OWS value and no final CRLF is not generated for exactly sized "
        "objects (skip_spwsp2 reads one byte past the block: memory-safety defect handed to C13)",
        "query keys are compared ignoring ASCII letter case (the library's mem_cmpin convention; RFC 3986 defines no pair syntax)",
        "path expectation: start = last '/' of the leading slash run; end = RFC path end minus trailing slashes when there is "
        "no query (comment 'Remove slash~s from tail' sits in that branch only) and anywhere between that and the RFC path "
        "end when there is a query",
        "KF_REQLINE_ORIGIN_SCHEME (while finding reqline_origin_scheme is unfixed): origin-form targets contain no \"://\"",
        "KF_REQLINE_AUTH_QUERY (while finding reqline_auth_query is unfixed): absolute-form targets with a query have a non-empty path",
    ],
    "harness_functions": ["harness", "t_emit", "t_len", "t_syms", "c_class", "c_alpha", "c_digit", "c_unres", "c_subdel",
                          "c_pchar", "c_query", "c_auth", "c_scheme", "c_tchar", "c_hex", "c_vchar", "c_reason",
                          "ref_method_code", "has_cs", "ci_eq", "ci_is", "is_ws", "v_alloc", "v_buf", "memchr", "memrchr",
                          "memmem", "v_memmem", "strnlen", "strncasecmp", "memcmp", "memmove", "memset", "malloc",
                          "explicit_bzero", "v_memcpy_same_ok"],
}

KF = {}   # both findings were repaired in /repo (known_findings.json: fixed)   # blocking assumptions for reported findings (see findings/)


def cstr(s):
    """python text -> C string literal for -D"""
    out = '"'
    for ch in s:
        if ch == "\r":
            out += "\\r"
        elif ch == "\n":
            out += "\\n"
        elif ch == "\t":
            out += "\\t"
        elif ch == '"':
            out += '\\"'
        elif ch == "\\":
            out += "\\\\"
        else:
            out += ch
    return out + '"'


def tlen(t):
    n = i = 0
    while i < len(t):
        if t[i] == "%":
            i += 1
            if t[i] == "c":
                i += 1
        n += 1
        i += 1
    return n


def tsyms(t):
    n = i = 0
    while i < len(t):
        if t[i] == "%":
            i += 1
            if t[i] != "%":
                n += 1
            if t[i] == "c":
                i += 1
        i += 1
    return n


# ------------------------------------------------------------------ request line
def reqline_job(name, form, method, scheme="", auth="", path="", query=None, ver="HTTP/%d.%d", tail="\r\n",
                expect_ebadmsg=False, lcb_fallback=False, timeout=None):
    parts = [method, ver, tail]
    fixed = 2  # two SP
    if form == 1:
        parts += [scheme, auth, path]
        fixed += 3
    elif form == 2:
        parts += [auth]
    elif form == 0:
        parts += [path]
    else:
        fixed += 1
    if form in (0, 1) and query is not None:
        parts.append(query)
        fixed += 1
    total = fixed + sum(tlen(p) for p in parts)
    nsym = sum(tsyms(p) for p in parts)
    defs = {"FORM": form, "T_METHOD": cstr(method), "T_VER": cstr(ver), "T_TAIL": cstr(tail), "TOTAL": total, "NSYM": nsym}
    if form == 1:
        defs["T_SCHEME"] = cstr(scheme)
    if form in (1, 2):
        defs["T_AUTH"] = cstr(auth)
    if form in (0, 1):
        defs["T_PATH"] = cstr(path)
        if query is not None:
            defs["HAS_QUERY"] = 1
            defs["T_QUERY"] = cstr(query)
    if expect_ebadmsg:
        defs["EXPECT_EBADMSG"] = None
    if lcb_fallback:
        defs["LCB_FALLBACK"] = None
    defs.update(KF)
    target = {0: path + ("?" + query if query is not None else ""),
              1: scheme + "://" + auth + path + ("?" + query if query is not None else ""), 2: auth, 3: "*"}[form]
    j = {"name": "reqline-" + name, "src": "reqline.c", "defs": defs, "unwind": total + 4, "solver": SOLVER,
         "shape": "request line template %r (%%x = one symbolic byte of RFC class x), %d bytes, %s" % (
             method + " " + target + " " + ver + tail, total,
             "real Linux build macros (libc memmem/memchr/strncasecmp)" if not lcb_fallback else "liblcb fallback memmem/memrchr/mem_cmpi"),
         "desc": "http_parse_req_line returns 0 and method/target/scheme/authority/path(trim)/query/version/line_size "
                 "spans equal the constructed positions" if not expect_ebadmsg else "lower-case first method byte -> EBADMSG"}
    if timeout:
        j["timeout"] = timeout
    return j


METHODS = ["OPTIONS", "GET", "HEAD", "POST", "PUT", "DELETE", "TRACE", "NOTIFY", "M-SEARCH", "M-POST", "SUBSCRIBE", "UNSUBSCRIBE"]


def reqline_jobs(tier):
    out = []
    q = tier == "quick"
    # every table method, origin-form
    for m in METHODS:
        out.append(reqline_job("m-%s" % m, 0, m, path="/%p"))
    out.append(reqline_job("m-CONNECT", 2, "CONNECT", auth="%h%h:%d%d"))
    out.append(reqline_job("m-CONNECT-1", 2, "CONNECT", auth="%h"))
    # unknown tokens of every length the fast method switch distinguishes (3..9, 11) and neighbours
    for n in ([2, 3, 4, 6, 7, 10] if q else range(1, 13)):
        out.append(reqline_job("m-unknown%d" % n, 0, "%A" + "%t" * (n - 1), path="/"))
    out.append(reqline_job("m-lower", 0, "%t%t%t", path="/", expect_ebadmsg=True))
    out.append(reqline_job("asterisk", 3, "OPTIONS"))
    out.append(reqline_job("asterisk-unk", 3, "%A%t%t%t%t%t%t"))
    # origin-form: paths with every slash arrangement, with/without query
    paths = ["/", "//", "///", "/%p", "//%p", "/%p/", "/%p//", "//%p//%p//", "/%p/%p/%p", "/%p%p//%p%p", "/%%%x%x/%p"]
    if not q:
        paths += ["////", "/%p/%p//", "///%p", "/%p///", "/%p%p%p/%p%p%p/%p%p%p", "//%p/%%%x%x//"]
    for i, p in enumerate(paths):
        out.append(reqline_job("origin-p%d" % i, 0, "GET", path=p))
        out.append(reqline_job("origin-p%d-q" % i, 0, "GET", path=p, query="%q%q" if q else "%q%q%q"))
    out.append(reqline_job("origin-q0", 0, "POST", path="/%p", query=""))
    out.append(reqline_job("origin-q4", 0, "POST", path="/%p/", query="%q%q%q%q"))
    out.append(reqline_job("origin-noeol", 0, "GET", path="/%p%p", query="%q", tail=""))
    out.append(reqline_job("origin-tail", 0, "GET", path="/%p%p", query="%q", tail="\r\n%b%b%b%b"))
    out.append(reqline_job("origin-tail2", 0, "HEAD", path="//%p/", tail="\r\n%b%b%b%b%b%b"))
    out.append(reqline_job("origin-fallback", 0, "GET", path="//%p/", query="%q", lcb_fallback=True, timeout=300))
    # absolute-form
    absf = [("http", "%h", "", None), ("http", "%h%h", "/", None), ("https", "%h:%d%d", "/%p", "%q"),
            ("http", "%h%h%h", "//%p//", None), ("%a%s", "%h", "/%p/%p", "%q%q"), ("http", "%h", "", "%q"),
            ("https", "%h%h", "/", ""), ("%a", "%h", "/", None)]
    if not q:
        absf += [("%a%s%s%s", "%h%h%h%h", "/%p%p/%p", "%q%q%q"), ("http", "%h%h", "", "%q%q%q"), ("http", "%h", "///", "%q")]
    for i, (s, a, p, qq) in enumerate(absf):
        if "KF_REQLINE_AUTH_QUERY" in KF and p == "" and qq is not None:
            continue        # exactly the blocked shape (would be vacuous); comes back when the KF_ define is removed
        out.append(reqline_job("abs-%d" % i, 1, "GET", scheme=s, auth=a, path=p, query=qq))
    out.append(reqline_job("abs-fallback", 1, "PUT", scheme="http", auth="%h%h", path="/%p/", query="%q", lcb_fallback=True))
    return out


# ------------------------------------------------------------------ status line
def respline_jobs(tier):
    out = []
    shapes = [("", "\r\n"), ("%r", "\r\n"), ("%r%r%r", "\r\n%b%b%b"), ("Not Found", "\r\n"), ("%r%r", ""), ("", "")]
    if tier != "quick":
        shapes += [("%r" * 8, "\r\n" + "%b" * 6), ("%r" * 5, "")]
    for i, (reason, tail) in enumerate(shapes):
        head = "HTTP/%d.%d %d%d%d "
        total = tlen(head) + tlen(reason) + tlen(tail)
        nsym = tsyms(head) + tsyms(reason) + tsyms(tail)
        out.append({"name": "respline-%d" % i, "src": "respline.c", "unwind": total + 4, "solver": SOLVER,
                    "defs": {"T_REASON": cstr(reason), "T_TAIL": cstr(tail), "TOTAL": total, "NSYM": nsym},
                    "shape": "status line template %r, %d bytes" % (head + reason + tail, total),
                    "desc": "http_parse_resp_line returns 0; version, status code, reason-phrase span, line_size as constructed"})
    return out


# ------------------------------------------------------------------ header lookup
def hdr_job(name, fields, look, end="", line="R", lcb_fallback=False, timeout=None, mode=1):
    total = tlen(line) + tlen(end) + sum(3 + tlen(n) + tlen(v) for n, v in fields)
    nsym = tsyms(line) + tsyms(end) + tsyms(look) + sum(tsyms(n) + tsyms(v) for n, v in fields)
    defs = {"PAD": 4 if end == "" else 0, "MODE": mode, "NF": len(fields), "T_LOOK": cstr(look), "LOOKLEN": tlen(look), "T_LINE": cstr(line), "T_END": cstr(end),
            "TOTAL": total, "NSYM": nsym}
    for i, (n, v) in enumerate(fields):
        defs["T_N%d" % (i + 1)] = cstr(n)
        defs["T_V%d" % (i + 1)] = cstr(v)
    if lcb_fallback:
        defs["LCB_FALLBACK"] = None
    text = line + "".join("\r\n" + n + ":" + v for n, v in fields) + end
    ncrlf = text.count("\r\n")
    j = {"name": "hdr-%s-%s" % (name, {1: "first", 2: "next", 3: "count"}[mode]), "src": "hdr.c", "defs": defs, "unwind": total + 4, "solver": SOLVER,
         # the loops whose exit depends on symbolic bytes get their true bounds (symex cannot see that %v is never CR;
         # the unwinding assertions, decided by the solver under the class assumptions, confirm the bounds)
         "unwindset": ["http_hdr_val_get_count.0:%d" % (len(fields) + 2), "http_hdr_val_get_ex.0:%d" % (ncrlf + 2),
                       "http_hdr_val_get_ex.1:%d" % (ncrlf + 2)],
         "shape": "header block template %r (%d bytes), looked-up name template %r, %s" % (
             text, total, look, "real Linux build macros" if not lcb_fallback else "liblcb fallback memmem/mem_cmpi"),
         # mem_chr_ptr() is handed `end + 2` after a non-matching last field: CBMC flags the relational comparison of an
         # out-of-object pointer; not observable natively (ASan silent), memory safety is C13's obligation
         "prop_exclude": "pointer relation",
         "desc": {1: "http_hdr_val_get_ex(offset 0): found iff some name matches case-insensitively; trimmed value span of the "
                     "FIRST match; offset_next", 2: "http_hdr_val_get == first match; http_hdr_val_get_ex(offset_next) finds "
                     "the second match or fails", 3: "http_hdr_val_get_count == number of matching fields"}[mode]}
    if timeout:
        j["timeout"] = timeout
    return j


def hdr_jobs(tier):
    """Block-side symbolic bytes are kept isolated (a literal byte between two symbolic ones) in most shapes and the
    looked-up name carries the symbolic case / symbolic token bytes: CBMC's symbolic execution cannot use the class
    assumptions, so every symbolic block byte is a potential ':' / CR for it, pointers become if-then-else terms and the
    nested mem_find loops explode (measured: 4 adjacent symbolic name bytes, 2 fields: > 5 M SAT variables)."""
    q = tier == "quick"
    out = []
    HOST = "%ch%co%cs%ct"
    ALL = (1, 2, 3)
    S = [  # name, fields, look, end, modes
        ("one", [("Host", " %v")], HOST, "", ALL),
        ("dup", [("Host", " %v"), ("hOSt", "%va")], HOST, "", ALL),
        ("dup-end", [("host", "%v"), ("HOST", "%v")], HOST, "\r\n", (1,) if q else (1, 3)),
        ("lenmix", [("abc", "%v"), ("ab", "%wa")], "%t%t", "", (1, 3)),
        ("tok", [("a!", "%v"), ("A!", "b")], "%t%t", "", (1, 3)),
        ("ows-sym", [("ab", "%wa%w")], "%ca%cb", "", (1,)),
        ("ows-adj", [("ab", "%w%v%w")], "ab", "", (1,)),
        ("ows-lit", [("ab", " \t%v\t ")], "%ca%cb", "", (1, 2)),
        ("empty", [("ab", "")], "%ca%cb", "\r\n", (1, 3)),
        ("empty-ows", [("ab", "%w"), ("ab", "")], "ab", "\r\n", (1, 2)),
        ("fold-mid", [("ab", " %v\r\n %v")], "%t%t", "", (1, 3)),
        ("fold-mid-ht", [("a", "%v\r\n\t%v"), ("A", "%v")], "%ca", "", (1, 2)),
        ("fold-lead", [("ab", "\r\n %v"), ("ab", "%v")], "%ca%cb", "", (1, 2) if q else (1, 2, 3)),
        ("fold-trail", [("ab", "%v\r\n "), ("AB", "x")], "%ca%cb", "", (1, 2)),
        ("fold-only", [("ab", "\r\n%w")], "%ca%cb", "\r\n", (1,)),
        ("blk-case", [("%ca%cb", " x")], "ab", "", (1, 3)),
        ("blk-tok", [("%t%t", "x")], "%t%t", "", (1,)),
        ("three", [("ab", "%v"), ("c", "1"), ("AB", "%v")], "%ca%cb", "", (1, 2)),
        ("cl", [("Content-Length", " %d")], "%cc%co%cn%ct%ce%cn%ct-%cl%ce%cn%cg%ct%ch", "", (1, 3)),
    ]
    if not q:
        S += [
            ("three-count", [("ab", "%v"), ("c", "1"), ("AB", "%v")], "%ca%cb", "", (3,)),
            ("blk-case2", [("%cHost", " %v"), ("hos%cT", "%v")], "host", "", ALL),
            ("blk-tok2", [("%tb", "%v"), ("a%t", "%v")], "a%t", "", (1, 3)),
            ("fold-2", [("ab", "%v\r\n %v\r\n\t%v"), ("ab", "%v")], "%ca%cb", "", (1, 3)),
            ("te", [("Transfer-Encoding", " %v")], "%ct%cr%ca%cn%cs%cf%ce%cr-%ce%cn%cc%co%cd%ci%cn%cg", "", (1, 3)),
            ("val3", [("ab", "%v%v%v")], "%ca%cb", "", (1, 3)),
        ]
    for n, f, l, e, modes in S:
        for mode in modes:
            out.append(hdr_job(n, f, l, end=e, mode=mode, timeout=300 if q else None))
    out.append(hdr_job("one-fallback", [("Host", " %v")], HOST, mode=1, lcb_fallback=True, timeout=300 if q else None))
    if not q:
        out.append(hdr_job("one-fallback", [("Host", " %v")], HOST, mode=3, lcb_fallback=True))
    return out


# ------------------------------------------------------------------ smuggling checks
def sec_job(name, fields, end="", line="R", name_token_only=False, lcb_fallback=False, timeout=None):
    total = tlen(line) + tlen(end) + sum(3 + tlen(n) + tlen(v) for n, v in fields)
    nsym = tsyms(line) + tsyms(end) + sum(tsyms(n) + tsyms(v) for n, v in fields)
    defs = {"PAD": 4 if end == "" else 0, "NF": len(fields), "T_LINE": cstr(line), "T_END": cstr(end), "TOTAL": total, "NSYM": nsym}
    for i, (n, v) in enumerate(fields):
        defs["T_N%d" % (i + 1)] = cstr(n)
        defs["T_V%d" % (i + 1)] = cstr(v)
    if name_token_only:
        defs["NAME_TOKEN_ONLY"] = None
    if lcb_fallback:
        defs["LCB_FALLBACK"] = None
    text = line + "".join("\r\n" + n + ":" + v for n, v in fields) + end
    ncrlf = text.count("\r\n") + text.count("%b%b")
    j = {"name": "sec-" + name, "src": "sec.c", "defs": defs, "unwind": total + 4, "solver": SOLVER,
         "unwindset": ["http_hdr_val_get_count.0:%d" % (ncrlf + 2), "http_hdr_val_get_ex.0:%d" % (ncrlf + 2),
                       "http_hdr_val_get_ex.1:%d" % (ncrlf + 2), "memchr.0:%d" % (total + 5), "v_memmem.0:%d" % (total + 1),
                       "v_memmem.1:%d" % (total + 1), "skip_spwsp2.0:%d" % (total + 1), "skip_spwsp2.1:%d" % (total + 1)],
         "prop_exclude": "pointer relation",
         "shape": "header block template %r (%d bytes), method code symbolic 0..13, %s" % (
             text, total, "real Linux build macros" if not lcb_fallback else "liblcb fallback memmem/mem_cmpi"),
         "desc": "http_req_sec_chk != 0 <=> block contains control byte / SP before ':' / duplicate Host, Content-Length, "
                 "Transfer-Encoding / CL together with TE / CL on GET (oracle from the construction)"}
    if timeout:
        j["timeout"] = timeout
    return j


def sec_jobs(tier):
    q = tier == "quick"
    CL, TE = "Content-Length", "Transfer-Encoding"
    # Field NAMES are literal in most shapes (enumerated defect selector: which of Host / CL / TE are present, how often
    # and in which spelling is the shape), everything else is symbolic: a symbolic byte in front of the colon makes the
    # position of the colon itself ambiguous for CBMC's symbolic execution (248 s / out of memory at 8 GB for 2 fields).
    S = [
        ("none-cl-get", [("Host", " %v"), (CL, " %d")], "", "G / H", False),
        ("none-2", [("Host", " %va"), ("Accept", " %v")], "\r\n", "R", False),
        ("none-val3", [("Host", " %va%v"), ("X", "%wb%w")], "", "R", False),
        ("none-te", [("Host", "%v"), (TE, " %va")], "", "R", False),
        ("none-hosts", [("Host", " %v"), ("Hosts", " %v"), ("Hos", "%v")], "", "R", False),
        ("dup-host", [("Host", " %v"), ("hOST", "%v")], "", "R", False),
        ("dup-host-end", [("HOST", "%v"), ("X", "%v"), ("host", "%v")], "\r\n", "R", False),
        ("dup-cl", [(CL, " %d"), ("CONTENT-length", "%d")], "", "R", False),
        ("dup-te", [(TE, " %v"), ("transfer-ENCODING", "%v")], "", "R", False),
        ("cl-te", [(CL, " %d"), (TE, " %v")], "", "R", False),
        ("te-cl-host", [(TE, "%v"), ("Host", "%v"), ("content-length", "%d")], "", "R", False),
        ("ctrl-val", [("Host", " a%bc")], "", "R", False),
        ("ctrl-val2", [("Host", "%b"), (CL, "%b")], "", "R", False),
        ("ctrl-line", [("Host", " a")], "", "G%b H", False),
        ("ctrl-name", [("Ho%bst", " a")], "", "R", True),
        # control byte as the very first byte of a line (added after the seeded change C20-sec-chk-line-start was missed)
        ("ctrl-line-start", [("%bost", " a")], "", "R", True),
        ("ctrl-line2-start", [("Host", " a"), ("%b", "b")], "", "R", True),
        ("sp-colon-name", [("Host%w", " a")], "", "R", False),
        ("sp-colon-val", [("Host", " a%w:b")], "", "R", False),
        ("sp-colon-val2", [("Host", "%b%b")], "", "R", False),
        ("sp-colon-line", [("Host", " a")], "", "G%w:", False),
        ("fold-hide", [("X", " a\r\n Host: %v"), ("Host", " %v")], "", "R", False),
        ("fold-hide-cl", [(CL, " 1\r\n\tTransfer-Encoding: %v")], "", "R", False),
    ]
    if not q:
        S += [
            ("ctrl-pair", [("Host", " a%b%bc")], "", "R", False),
            ("dup-host-sym", [("Host", " a"), ("hOS%t", " b")], "", "R", False),
            ("ctrl-end", [("Host", " a")], "%b", "R", False),
            ("case-host", [("%cHos%ct", " 1"), ("host", "b")], "", "R", False),
        ]
    out = [sec_job(n, f, end=e, line=l, name_token_only=t, timeout=300 if q else None) for n, f, e, l, t in S]
    return out


# ------------------------------------------------------------------ query access
def query_job(name, pairs, look, mode, pre="", post="", sep="&", timeout=None):
    total = tlen(pre) + tlen(post) + sum(1 + tlen(k) + tlen(v) for k, v in pairs) + tlen(sep) * (len(pairs) - 1)
    nsym = tsyms(look) + sum(tsyms(k) + tsyms(v) for k, v in pairs)
    defs = {"MODE": mode, "NP": len(pairs), "T_LOOK": cstr(look), "LOOKLEN": tlen(look), "T_PRE": cstr(pre), "T_POST": cstr(post),
            "T_SEP": cstr(sep), "TOTAL": total, "NSYM": nsym}
    for i, (k, v) in enumerate(pairs):
        defs["T_K%d" % (i + 1)] = cstr(k)
        defs["T_V%d" % (i + 1)] = cstr(v)
    text = pre + sep.join(k + "=" + v for k, v in pairs) + post
    amp = len(sep) + 2
    j = {"name": "query-%s-%s" % (name, {1: "get", 2: "del"}[mode]), "src": "query.c", "defs": defs, "unwind": total + 3,
         "solver": SOLVER, "prop_exclude": "pointer relation",
         # loops over pairs / over runs of '&': true bounds (confirmed by the unwinding assertions)
         "unwindset": ["http_query_val_del.0:%d" % (len(pairs) + 2), "http_query_val_del.1:%d" % amp, "http_query_val_del.2:%d" % amp,
                       "http_query_val_get_ex.0:%d" % amp, "http_query_val_get_ex.1:%d" % (len(pairs) + 2),
                       "http_query_val_get_ex.2:%d" % amp, "memchr.0:%d" % (total + 1)],
         "shape": "query template %r (%d bytes), looked-up key template %r" % (text, total, look),
         "desc": {1: "http_query_val_get_ex / http_query_val_get: first pair whose key matches (case-insensitive): key pointer, "
                     "value span; error if none",
                  2: "http_query_val_del: returns number of matching pairs; remaining text = other pairs in order joined by '&'"}[mode]}
    if timeout:
        j["timeout"] = timeout
    return j


def query_jobs(tier):
    q = tier == "quick"
    out = []
    # del: keys/values literal, looked-up key symbolic (a symbolic byte inside the query makes the '=' / '&' positions and
    # hence the memmove length ambiguous for symbolic execution: 3-byte query "%k=%k" needs 60 s, 7 bytes > 300 s)
    S = [  # name, pairs, look, modes, pre, post, sep
        ("one", [("%k", "%k")], "%k", (1, 2), "", "", "&"),
        ("one-empty-val", [("%k%k", "")], "%k%k", (1,), "", "", "&"),
        ("two", [("%k", "%k"), ("%k", "%k")], "%k", (1,), "", "", "&"),
        ("two-lit", [("ab", "%k"), ("AB", "%k=")], "%ca%cb", (1,), "", "", "&"),
        ("two-len", [("a", "1"), ("ab", "%k")], "%k%k", (1,), "", "", "&"),
        ("three-lit", [("a", "%k"), ("b", ""), ("A", "%k")], "%ca", (1,), "", "", "&"),
        ("three", [("%k", "1"), ("%k", "2"), ("%k", "3")], "%k", (1,), "", "", "&"),
        ("pre-amp", [("a", "%k"), ("b", "%k")], "%k", (1,), "&", "", "&"),
        ("post-amp", [("a", "%k"), ("b", "%k")], "%k", (1,), "", "&", "&"),
        ("sep2", [("a", "%k"), ("b", "%k")], "%k", (1,), "", "", "&&"),
        ("d2", [("a", "1"), ("b", "2")], "%k", (2,), "", "", "&"),
        ("d2-dup", [("a", "1"), ("A", "22")], "%ca", (2,), "", "", "&"),
        ("d3", [("a", "1"), ("b", ""), ("A", "3")], "%k", (2,), "", "", "&"),
        ("d3-mid", [("x", "1"), ("ab", "2"), ("y", "3")], "%ca%cb", (2,), "", "", "&"),
        ("d1-val", [("ab", "%k")], "%ca%cb", (2,), "", "", "&"),
    ]
    for n, p, l, modes, pre, post, sep in S:
        for m in modes:
            out.append(query_job(n, p, l, m, pre=pre, post=post, sep=sep, timeout=300 if q else None))
    return out


def jobs(tier):
    out = reqline_jobs(tier) + respline_jobs(tier) + hdr_jobs(tier) + sec_jobs(tier) + query_jobs(tier)
    for j in out:       # typical job: 1..40 s on an idle machine; generous cap because the box is shared (load 60 seen)
        if tier == "quick" and not j.get("timeout"):
            j["timeout"] = 400
    return out
