/* C20 / smuggling checks: http_req_sec_chk() on a header block assembled by the harness
 *      T_LINE CRLF  N1 ":" V1  [CRLF N2 ":" V2  [CRLF N3 ":" V3]]  T_END
 * and a symbolic method code (IN.method in 0..13).
 *
 * The shape (templates) says which defects are possible at all; which of them is actually present is decided by the
 * symbolic bytes (a "%b" byte may or may not be a control byte, a "%t" byte may or may not complete the name "Host",
 * "%w" before the colon may be SP or HTAB, the method may or may not be GET ...), "none" included.
 * Oracle, from the construction (names are known by position, not re-parsed):
 *   bad  <=>  some byte is a control byte (< 32 other than HTAB and other than CR LF as a pair; or > 126)
 *          or some SP is directly followed by ':'
 *          or more than one field is named Host / Content-Length / Transfer-Encoding (ASCII case-insensitive)
 *          or Content-Length and Transfer-Encoding are both present
 *          or Content-Length is present and the method is GET.
 * Property: http_req_sec_chk(...) != 0  <=>  bad.
 */
#include "verif.h"
#include "common/libcenv/libc_env.h"
#include <errno.h>
#include "proto/http.c"
#include "tmpl.h"

#ifndef T_LINE
#define T_LINE "R"
#endif
#ifndef T_END
#define T_END ""
#endif
#ifndef PAD
#define PAD 0	/* 0: the block is an exactly sized object; 4: block followed by CRLFCRLF inside the same object (server layout) */
#endif

struct in_s { uint8_t sym[NSYM + 1]; uint8_t method; };
#include "verif_in.h"

static int ci_is(const uint8_t *a, size_t an, const char *lit, size_t ln) {
	if (an != ln) return (0);
	for (size_t i = 0; i < an; i++) {
		uint8_t x = a[i];
		if (x >= 'A' && x <= 'Z') x = (uint8_t)(x + 32);
		if (x != (uint8_t)lit[i]) return (0);
	}
	return (1);
}

void harness(void) {
	V_BEGIN();
	static uint8_t buf_store[TOTAL + PAD];	/* exactly sized object */
	uint8_t *buf = buf_store;
	size_t pos = 0, si = 0;
	size_t f_n0[3] = { 0, 0, 0 }, f_n1[3] = { 0, 0, 0 };

	T_EMIT(buf, pos, T_LINE, IN.sym, si);
#define FIELD(i, TN, TV) do { \
	buf[pos++] = '\r'; buf[pos++] = '\n'; \
	f_n0[i] = pos; T_EMIT(buf, pos, TN, IN.sym, si); f_n1[i] = pos; \
	buf[pos++] = ':'; \
	T_EMIT(buf, pos, TV, IN.sym, si); \
} while (0)
	FIELD(0, T_N1, T_V1);
#if NF >= 2
	FIELD(1, T_N2, T_V2);
#endif
#if NF >= 3
	FIELD(2, T_N3, T_V3);
#endif
	T_EMIT(buf, pos, T_END, IN.sym, si);
#if PAD == 4	/* http_server.c layout: hdr_size stops before the CRLFCRLF that is physically present in the receive buffer */
	buf[TOTAL] = '\r'; buf[TOTAL + 1] = '\n'; buf[TOTAL + 2] = '\r'; buf[TOTAL + 3] = '\n';
#endif
	V_ASSERT(pos == TOTAL && si == NSYM, "harness self-check: template sizes");
	uint32_t method = IN.method;
	V_ASSUME(method < HTTP_REQ_METHOD__COUNT__);
#ifdef NAME_TOKEN_ONLY
	/* field-name = token: a '%b' / '%v' byte placed inside a name template must not be the colon itself (then the name
	 * the harness recorded would not be the name on the wire) */
	for (size_t i = 0; i < NF; i++) {
		for (size_t k = f_n0[i]; k < f_n1[i]; k++) V_ASSUME(buf[k] != ':');
	}
#endif

	int ctrl = 0, spcolon = 0;
	for (size_t i = 0; i < TOTAL; i++) {
		uint8_t c = buf[i];
		if (c > 126) ctrl = 1;
		if (c < 32 && c != '\t') {
			int crlf_first = (c == '\r' && i + 1 < TOTAL && buf[i + 1] == '\n');
			int crlf_second = (c == '\n' && i > 0 && buf[i - 1] == '\r');
			if (!crlf_first && !crlf_second) ctrl = 1;
		}
		if (c == ' ' && i + 1 < TOTAL && buf[i + 1] == ':') spcolon = 1;
	}
	size_t n_host = 0, n_cl = 0, n_te = 0;
	for (size_t i = 0; i < NF; i++) {
		if (ci_is(buf + f_n0[i], f_n1[i] - f_n0[i], "host", 4)) n_host++;
		if (ci_is(buf + f_n0[i], f_n1[i] - f_n0[i], "content-length", 14)) n_cl++;
		if (ci_is(buf + f_n0[i], f_n1[i] - f_n0[i], "transfer-encoding", 17)) n_te++;
	}
	int bad = ctrl || spcolon || n_host > 1 || n_cl > 1 || n_te > 1 || (n_cl > 0 && n_te > 0) ||
	    (n_cl > 0 && method == HTTP_REQ_METHOD_GET);

	int r = http_req_sec_chk(buf, TOTAL, method);
	V_ASSERT((r != 0) == (bad != 0), "http_req_sec_chk rejects exactly the blocks containing a listed pattern");
	if (!bad) V_WITNESS("clean block accepted");
	if (ctrl) V_WITNESS("control byte");
	if (spcolon) V_WITNESS("SP before colon");
	if (!ctrl && !spcolon && n_host > 1) V_WITNESS("duplicate Host");
	if (!ctrl && !spcolon && n_cl > 1) V_WITNESS("duplicate Content-Length");
	if (!ctrl && !spcolon && n_te > 1) V_WITNESS("duplicate Transfer-Encoding");
	if (!ctrl && !spcolon && n_cl == 1 && n_te == 1) V_WITNESS("Content-Length with Transfer-Encoding");
	if (!ctrl && !spcolon && n_cl == 1 && n_te == 0 && method == HTTP_REQ_METHOD_GET) V_WITNESS("Content-Length on GET");
}
