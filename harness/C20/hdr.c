/* C20 / header lookup: http_hdr_val_get_ex(), http_hdr_val_get(), http_hdr_val_get_count() on a header block assembled
 * by the harness:   T_LINE CRLF  N1 ":" V1  [CRLF N2 ":" V2  [CRLF N3 ":" V3]]  T_END
 * (http_server.c passes the block WITHOUT the final CRLFCRLF, so T_END is "" in most shapes and "\r\n" in some).
 *
 * Shape (concrete): NF = number of fields, T_Ni = field-name templates (e.g. "Host", "%a%a%a%a", "%t%t"),
 * T_Vi = raw field-value region after the colon (e.g. "%w%v%v%w", "%v\r\n %v" = obs-fold), T_LOOK = the name that
 * is looked up (e.g. "host" or "%t%t"), TOTAL, NSYM.
 *
 * By-construction answer (RFC 7230 section 3.2): a field matches iff its name equals the looked-up name ignoring the
 * case of ASCII letters; its value is the raw region minus leading/trailing OWS (SP / HTAB) and minus leading /
 * trailing folds (CRLF 1*(SP/HTAB)); a fold inside the value stays part of it (the line continues); the count is the
 * number of matching fields; iteration continues after the matched field.
 */
#include "verif.h"
#include "common/libcenv/libc_env.h"
#include <errno.h>
#include "proto/http.c"
#include "tmpl.h"

#ifndef T_LINE
#define T_LINE "GET / HTTP/1.1"
#endif
#ifndef T_END
#define T_END ""
#endif
#ifndef PAD
#define PAD 0	/* 0: the block is an exactly sized object; 4: block followed by CRLFCRLF inside the same object (server layout) */
#endif

struct in_s { uint8_t sym[NSYM + 1]; };
#include "verif_in.h"

static int ci_eq(const uint8_t *a, size_t an, const uint8_t *b, size_t bn) {
	if (an != bn) return (0);
	for (size_t i = 0; i < an; i++) {
		uint8_t x = a[i], y = b[i];
		if (x >= 'A' && x <= 'Z') x = (uint8_t)(x + 32);
		if (y >= 'A' && y <= 'Z') y = (uint8_t)(y + 32);
		if (x != y) return (0);
	}
	return (1);
}
static int is_ws(uint8_t c) { return (c == ' ' || c == '\t' || c == '\r' || c == '\n'); }

/* per field: name span, raw value span, trimmed value span, terminator offset, name matches
 * (plain scalar arrays, no memset / struct copies: keeps every position a constant for CBMC's symbolic execution) */

void harness(void) {
	V_BEGIN();
	static uint8_t buf_store[TOTAL + PAD];	/* exactly sized object (static: CBMC constant-propagates through it, unlike malloc) */
	uint8_t *buf = buf_store;
	static uint8_t look_store[LOOKLEN];
	uint8_t *look = look_store;
	size_t pos = 0, si = 0, lpos = 0;
	size_t f_n0[3] = { 0, 0, 0 }, f_n1[3] = { 0, 0, 0 }, f_v0[3] = { 0, 0, 0 }, f_v1[3] = { 0, 0, 0 };
	size_t f_t0[3] = { 0, 0, 0 }, f_t1[3] = { 0, 0, 0 }, f_end[3] = { 0, 0, 0 };
	int f_match[3] = { 0, 0, 0 };

	T_EMIT(look, lpos, T_LOOK, IN.sym, si);
	T_EMIT(buf, pos, T_LINE, IN.sym, si);
#define FIELD(i, TN, TV) do { \
	buf[pos++] = '\r'; buf[pos++] = '\n'; \
	f_n0[i] = pos; T_EMIT(buf, pos, TN, IN.sym, si); f_n1[i] = pos; \
	buf[pos++] = ':'; \
	f_v0[i] = pos; T_EMIT(buf, pos, TV, IN.sym, si); f_v1[i] = pos; f_end[i] = pos; \
} while (0)
	FIELD(0, T_N1, T_V1);
#if NF >= 2
	FIELD(1, T_N2, T_V2);
#endif
#if NF >= 3
	FIELD(2, T_N3, T_V3);
#endif
	T_EMIT(buf, pos, T_END, IN.sym, si);
#if PAD == 4	/* http_server.c layout: hdr_size stops before the CRLFCRLF that is physically present in the receive buffer */
	buf[TOTAL] = '\r'; buf[TOTAL + 1] = '\n'; buf[TOTAL + 2] = '\r'; buf[TOTAL + 3] = '\n';
#endif
	V_ASSERT(pos == TOTAL && si == NSYM && lpos == LOOKLEN, "harness self-check: template sizes");

	size_t nmatch = 0, first = NF, second = NF;
	for (size_t i = 0; i < NF; i++) {
		size_t a = f_v0[i], b = f_v1[i];
		while (a < b && is_ws(buf[a])) a++;
		while (b > a && is_ws(buf[b - 1])) b--;
		f_t0[i] = a; f_t1[i] = b;
		f_match[i] = ci_eq(buf + f_n0[i], f_n1[i] - f_n0[i], look, lpos);
		if (f_match[i]) {
			if (nmatch == 0) first = i;
			if (nmatch == 1) second = i;
			nmatch++;
		}
	}

#if MODE == 1	/* first match: http_hdr_val_get_ex(offset 0) */
	const uint8_t *val = (const uint8_t *)&pos;
	size_t vlen = 777, next = 777;
	int r = http_hdr_val_get_ex(buf, TOTAL, look, lpos, 0, &val, &vlen, &next);
	if (first == NF) {
		V_ASSERT(r != 0, "no field with that name: lookup fails");
		V_WITNESS("lookup: not found");
	} else {
		V_ASSERT(r == 0, "a field with that name (any letter case) is found");
		if (r == 0) {
			V_ASSERT(vlen == f_t1[first] - f_t0[first], "value length = raw value minus surrounding OWS / folds");
			V_ASSERT(vlen == 0 || val == buf + f_t0[first], "value pointer = first non-OWS byte of the FIRST matching field");
			V_ASSERT(val >= buf && val + vlen <= buf + TOTAL, "value is a sub-span of the block");
			V_ASSERT(next == f_end[first], "offset_next = offset of the CRLF that ends the field (or the block size)");
			if (f_t0[first] != f_v0[first] || f_t1[first] != f_v1[first]) V_WITNESS("lookup: OWS trimmed");
			if (first != 0) V_WITNESS("lookup: earlier fields skipped");
			V_WITNESS("lookup: found");
		}
	}
#elif MODE == 2	/* plain getter and continuation after the first match (offset = offset_next of the first match) */
	V_ASSUME(first != NF);
	const uint8_t *val2 = NULL; size_t vlen2 = 777;
	int r2 = http_hdr_val_get(buf, TOTAL, look, lpos, &val2, &vlen2);
	V_ASSERT(r2 == 0 && vlen2 == f_t1[first] - f_t0[first] && (vlen2 == 0 || val2 == buf + f_t0[first]),
	    "http_hdr_val_get returns the trimmed value of the first matching field");
	const uint8_t *val3 = NULL; size_t vlen3 = 777, next3 = 777;
	int r3 = -1;
	for (size_t i = 0; i < NF; i++) {	/* case split so that the offset passed in is a constant on each path */
		if (first == i) r3 = http_hdr_val_get_ex(buf, TOTAL, look, lpos, f_end[i], &val3, &vlen3, &next3);
	}
	if (second == NF) {
		V_ASSERT(r3 != 0, "no second field with that name");
		V_WITNESS("continuation: no further match");
	} else {
		V_ASSERT(r3 == 0, "second field with that name is found when continuing at offset_next");
		if (r3 == 0) {
			V_ASSERT(vlen3 == f_t1[second] - f_t0[second] && (vlen3 == 0 || val3 == buf + f_t0[second]) &&
			    next3 == f_end[second], "second match: trimmed value span and offset_next");
			V_WITNESS("continuation: second match");
		}
	}
#else		/* MODE 3: count */
	size_t cnt = http_hdr_val_get_count(buf, TOTAL, look, lpos);
	V_ASSERT(cnt == nmatch, "http_hdr_val_get_count = number of fields whose name matches case-insensitively");
	if (nmatch >= 2) V_WITNESS("count: duplicates");
	if (nmatch == 1) V_WITNESS("count: one");
	if (nmatch == 0) V_WITNESS("count: none");
#endif
}
