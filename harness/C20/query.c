/* C20 / query access: http_query_val_get_ex(), http_query_val_get(), http_query_val_del() on a query string assembled
 * by the harness:   T_PRE  K1 "=" V1  [T_SEP K2 "=" V2  [T_SEP K3 "=" V3]]  T_POST
 * T_SEP is "&" (canonical) or "&&"; T_PRE / T_POST are "" or "&" (the library documents "[&]val_name=val[&]").
 * Keys: >= 1 byte, symbolic query chars other than '&' and '=' ("%k"); values: the same class, '=' allowed literally.
 *
 * By-construction answer: a pair matches iff its key equals the looked-up name ignoring ASCII letter case (the library
 * compares with mem_cmpin; RFC 3986 does not define pair syntax).  get: key pointer, value pointer and value length of
 * the FIRST matching pair, error if none.  del (canonical form only, MODE 2): every matching pair is removed, the rest
 * keeps its order and stays joined by single '&'; returns the number of removed pairs and the new length.
 */
#include "verif.h"
#include "common/libcenv/libc_env.h"
#include <errno.h>
#include "proto/http.c"
#include "tmpl.h"

#ifndef T_PRE
#define T_PRE ""
#endif
#ifndef T_POST
#define T_POST ""
#endif
#ifndef T_SEP
#define T_SEP "&"
#endif

struct in_s { uint8_t sym[NSYM + 1]; };
#include "verif_in.h"

static int ci_eq(const uint8_t *a, size_t an, const uint8_t *b, size_t bn) {
	if (an != bn) return (0);
	for (size_t i = 0; i < an; i++) {
		uint8_t x = a[i], y = b[i];
		if (x >= 'A' && x <= 'Z') x = (uint8_t)(x + 32);
		if (y >= 'A' && y <= 'Z') y = (uint8_t)(y + 32);
		if (x != y) return (0);
	}
	return (1);
}

void harness(void) {
	V_BEGIN();
	static uint8_t buf_store[TOTAL];	/* exactly sized object */
	static uint8_t look_store[LOOKLEN];
	uint8_t *buf = buf_store, *look = look_store;
	size_t pos = 0, si = 0, lpos = 0;
	size_t k0[3] = { 0, 0, 0 }, k1[3] = { 0, 0, 0 }, v0[3] = { 0, 0, 0 }, v1[3] = { 0, 0, 0 };
	int match[3] = { 0, 0, 0 };

	T_EMIT(look, lpos, T_LOOK, IN.sym, si);
	T_EMIT(buf, pos, T_PRE, IN.sym, si);
#define PAIR(i, TK, TV) do { \
	k0[i] = pos; T_EMIT(buf, pos, TK, IN.sym, si); k1[i] = pos; \
	buf[pos++] = '='; \
	v0[i] = pos; T_EMIT(buf, pos, TV, IN.sym, si); v1[i] = pos; \
} while (0)
	PAIR(0, T_K1, T_V1);
#if NP >= 2
	T_EMIT(buf, pos, T_SEP, IN.sym, si);
	PAIR(1, T_K2, T_V2);
#endif
#if NP >= 3
	T_EMIT(buf, pos, T_SEP, IN.sym, si);
	PAIR(2, T_K3, T_V3);
#endif
	T_EMIT(buf, pos, T_POST, IN.sym, si);
	V_ASSERT(pos == TOTAL && si == NSYM && lpos == LOOKLEN, "harness self-check: template sizes");

	size_t nmatch = 0, first = NP;
	for (size_t i = 0; i < NP; i++) {
		match[i] = ci_eq(buf + k0[i], k1[i] - k0[i], look, lpos);
		if (match[i]) {
			if (nmatch == 0) first = i;
			nmatch++;
		}
	}

#if MODE == 1
	const uint8_t *kp = NULL, *vp = NULL;
	size_t vl = 777;
	int r = http_query_val_get_ex(buf, TOTAL, look, lpos, &kp, &vp, &vl);
	if (first == NP) {
		V_ASSERT(r != 0, "no pair with that key: lookup fails");
		V_WITNESS("get: not found");
	} else {
		V_ASSERT(r == 0, "a pair with that key is found");
		if (r == 0) {
			V_ASSERT(kp == buf + k0[first], "key pointer = start of the first matching pair");
			V_ASSERT(vp == buf + v0[first] && vl == v1[first] - v0[first], "value span = after '=' up to the next '&' or the end");
			const uint8_t *vp2 = NULL; size_t vl2 = 777;
			int r2 = http_query_val_get(buf, TOTAL, look, lpos, &vp2, &vl2);
			V_ASSERT(r2 == 0 && vp2 == vp && vl2 == vl, "http_query_val_get agrees with http_query_val_get_ex");
			if (first != 0) V_WITNESS("get: earlier pairs skipped");
			V_WITNESS("get: found");
		}
	}
#else
	/* expected remainder */
	static uint8_t exp_store[TOTAL + 1];
	size_t en = 0;
	for (size_t i = 0; i < NP; i++) {
		if (match[i]) continue;
		if (en != 0) exp_store[en++] = '&';
		for (size_t k = k0[i]; k < v1[i]; k++) exp_store[en++] = buf[k];
	}
	size_t newlen = 777;
	size_t cnt = http_query_val_del(buf, TOTAL, look, lpos, &newlen);
	V_ASSERT(cnt == nmatch, "http_query_val_del returns the number of pairs with that key");
	V_ASSERT(newlen == en, "remaining length = remaining pairs joined by single '&'");
	if (newlen == en) {
		int same = 1;
		for (size_t k = 0; k < TOTAL; k++) {
			if (k < en && buf[k] != exp_store[k]) same = 0;
		}
		V_ASSERT(same, "remaining text = the non-matching pairs, in order, joined by '&'");
	}
	if (nmatch == 0) V_WITNESS("del: nothing removed");
	if (nmatch == 1) V_WITNESS("del: one removed");
	if (nmatch >= 2) V_WITNESS("del: several removed");
	if (nmatch == NP) V_WITNESS("del: everything removed");
#endif
}
