/* C20: template-symbolic text construction.
 *
 * A template is a C string literal (concrete per job = the "shape"); ordinary characters are copied verbatim,
 * "%<c>" emits ONE symbolic byte (taken from IN.sym[]) constrained by V_ASSUME to the RFC character class <c>:
 *   %p pchar without '%'   (RFC 3986: unreserved / sub-delims / ":" / "@")
 *   %q query char          (pchar / "/" / "?")
 *   %h authority char      (unreserved / sub-delims / ":" / "@" / "[" / "]")  -- superset of userinfo@host:port
 *   %s scheme tail char    (ALPHA / DIGIT / "+" / "-" / ".")
 *   %t tchar  (RFC 7230 token char)      %a ALPHA      %A upper-case ALPHA      %d DIGIT      %x HEXDIG
 *   %v field-vchar: VCHAR (0x21..0x7e)   %r reason-phrase char (HTAB / SP / VCHAR / obs-text)
 *   %w one OWS byte (SP / HTAB)          %k query-pair key/value char (query char without "&" and "=")
 *   %b ANY byte (unconstrained)          %% a literal '%'
 *   %cX the ASCII letter X in either case (one symbolic byte with two values; consumes the template char X)
 * Because the harness wrote the text it knows where every part starts and ends.
 */
#ifndef C20_TMPL_H
#define C20_TMPL_H

static inline int c_alpha(uint8_t c) { return ((c >= 'A' && c <= 'Z') || (c >= 'a' && c <= 'z')); }
static inline int c_digit(uint8_t c) { return (c >= '0' && c <= '9'); }
static inline int c_unres(uint8_t c) { return (c_alpha(c) || c_digit(c) || c == '-' || c == '.' || c == '_' || c == '~'); }
static inline int c_subdel(uint8_t c) {
	return (c == '!' || c == '$' || c == '&' || c == '\'' || c == '(' || c == ')' || c == '*' || c == '+' ||
	    c == ',' || c == ';' || c == '=');
}
static inline int c_pchar(uint8_t c) { return (c_unres(c) || c_subdel(c) || c == ':' || c == '@'); }
static inline int c_query(uint8_t c) { return (c_pchar(c) || c == '/' || c == '?'); }
static inline int c_auth(uint8_t c) { return (c_unres(c) || c_subdel(c) || c == ':' || c == '@' || c == '[' || c == ']'); }
static inline int c_scheme(uint8_t c) { return (c_alpha(c) || c_digit(c) || c == '+' || c == '-' || c == '.'); }
static inline int c_tchar(uint8_t c) {
	return (c_alpha(c) || c_digit(c) || c == '!' || c == '#' || c == '$' || c == '%' || c == '&' || c == '\'' ||
	    c == '*' || c == '+' || c == '-' || c == '.' || c == '^' || c == '_' || c == '`' || c == '|' || c == '~');
}
static inline int c_hex(uint8_t c) { return (c_digit(c) || (c >= 'a' && c <= 'f') || (c >= 'A' && c <= 'F')); }
static inline int c_vchar(uint8_t c) { return (c >= 0x21 && c <= 0x7e); }
static inline int c_reason(uint8_t c) { return (c == '\t' || c == ' ' || c_vchar(c) || c >= 0x80); }
static inline int c_class(char k, uint8_t c) {
	switch (k) {
	case 'p': return (c_pchar(c));
	case 'q': return (c_query(c));
	case 'h': return (c_auth(c));
	case 's': return (c_scheme(c));
	case 't': return (c_tchar(c));
	case 'a': return (c_alpha(c));
	case 'A': return (c >= 'A' && c <= 'Z');
	case 'd': return (c_digit(c));
	case 'x': return (c_hex(c));
	case 'v': return (c_vchar(c));
	case 'r': return (c_reason(c));
	case 'w': return (c == ' ' || c == '\t');
	case 'k': return (c_query(c) && c != '&' && c != '=');
	case 'b': return (1);
	}
	return (0);
}

/* number of bytes a template expands to (constant-folded: the argument is a literal) */
static inline size_t t_len(const char *t, size_t tn) {
	size_t n = 0;
	for (size_t i = 0; i < tn; i++) {
		if (t[i] == '%') { i++; if (t[i] == 'c') i++; }
		n++;
	}
	return (n);
}
/* number of symbolic bytes a template consumes */
static inline size_t t_syms(const char *t, size_t tn) {
	size_t n = 0;
	for (size_t i = 0; i < tn; i++) {
		if (t[i] == '%') { i++; if (t[i] != '%') n++; if (t[i] == 'c') i++; }
	}
	return (n);
}
#define T_LEN(T)	t_len((T), sizeof(T) - 1)
#define T_SYMS(T)	t_syms((T), sizeof(T) - 1)

/* Append the expansion of template t to buf at *pos, drawing symbolic bytes from sym[*si ...]. */
static inline void t_emit(uint8_t *buf, size_t *pos, const char *t, size_t tn, const uint8_t *sym, size_t *si) {
	for (size_t i = 0; i < tn; i++) {
		if (t[i] == '%') {
			i++;
			if (t[i] == '%') {
				buf[(*pos)++] = '%';
			} else if (t[i] == 'c') {
				uint8_t c = sym[(*si)++];
				i++;
				V_ASSUME(c == (uint8_t)(t[i] | 0x20) || c == (uint8_t)(t[i] & ~0x20));
				buf[(*pos)++] = c;
			} else {
				uint8_t c = sym[(*si)++];
				V_ASSUME(c_class(t[i], c));
				buf[(*pos)++] = c;
			}
		} else {
			buf[(*pos)++] = (uint8_t)t[i];
		}
	}
}
#define T_EMIT(buf, pos, T, sym, si)	t_emit((buf), &(pos), (T), sizeof(T) - 1, (sym), &(si))

#endif
