/* C20 / status line: http_parse_resp_line() on "HTTP/" DIGIT "." DIGIT SP 3DIGIT SP reason-phrase [CRLF tail].
 * Shape: T_REASON (e.g. "%r%r%r" or "Not Found"), T_TAIL ("" or "\r\n%b..."), TOTAL, NSYM.
 * Expectation (RFC 7230 section 3.1.2): version digits, status code = value of the three digits, reason-phrase = bytes
 * after the second SP up to the first CRLF (or the end of the buffer), line_size = bytes before that CRLF. */
#include "verif.h"
#include "common/libcenv/libc_env.h"
#include <errno.h>
#include "proto/http.c"
#include "tmpl.h"

#ifndef T_TAIL
#define T_TAIL "\r\n"
#endif
#define T_HEAD "HTTP/%d.%d %d%d%d "

struct in_s { uint8_t sym[NSYM + 1]; };
#include "verif_in.h"

void harness(void) {
	V_BEGIN();
	static uint8_t buf_store[TOTAL];	/* exactly sized object (static: CBMC constant-propagates through it, unlike malloc) */
	uint8_t *buf = buf_store;
	size_t pos = 0, si = 0;
	T_EMIT(buf, pos, T_HEAD, IN.sym, si);
	size_t r0 = pos;
	T_EMIT(buf, pos, T_REASON, IN.sym, si);
	size_t lend = pos;
	T_EMIT(buf, pos, T_TAIL, IN.sym, si);
	V_ASSERT(pos == TOTAL && si == NSYM && r0 == 13, "harness self-check: template sizes");

	http_resp_line_data_t d;
	memset(&d, 0xa5, sizeof(d));
	int r = http_parse_resp_line(buf, TOTAL, &d);
#if TOTAL < 14
	V_ASSERT(r == EINVAL, "shorter than the shortest status line the library accepts (14 bytes): EINVAL");
	V_WITNESS("too short");
	return;
#endif
	V_ASSERT(r == 0, "well-formed status line is accepted");
	if (r != 0) return;
	V_ASSERT(d.line_size == lend, "line_size = bytes before the first CRLF (or the whole buffer)");
	V_ASSERT(d.proto_ver == (((uint32_t)(buf[5] - '0') << 16) | (uint32_t)(buf[7] - '0')), "proto_ver = (major << 16) | minor");
	V_ASSERT(d.status_code == (uint32_t)(buf[9] - '0') * 100 + (uint32_t)(buf[10] - '0') * 10 + (uint32_t)(buf[11] - '0'),
	    "status_code = value of the three digits");
	V_ASSERT(d.reason_phrase == buf + r0 && d.reason_phrase_size == lend - r0, "reason-phrase span = after the second SP up to the line end");
	V_WITNESS("accepted, all fields as expected");
}
