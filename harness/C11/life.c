/* C11: pool life cycle - create / threads_create / attach_first / shutdown (outside or from a pool thread) /
 * shutdown_wait / destroy; failure of the k-th resource acquisition leaves nothing behind; hooks exactly once.
 *
 * Real code executed: tp_init, tp_create, tpt_data_init/uninit, tpt_data_event_init/destroy, tpt_msg_queue_create/destroy,
 * tpt_ev_add_args2, tpt_ev_post, epoll_ctl_ex, tp_threads_create, pthread_create_eagain, tp_thread_attach_first,
 * tp_thread_proc, tpt_loop, tpt_msg_recv_and_process, tpt_msg_send, tp_shutdown, tpt_msg_shutdown_cb, tp_shutdown_wait,
 * tp_destroy, tp_thread_is_tp_thr, tp_thread_count_get, accessors.
 *
 * Resource ledger (common/tp/post.h): descriptors (epoll_create1 / pipe2 / timerfd_create vs. close), allocations
 * (calloc vs. free), threads (pthread_create vs. pthread_join).  The k-th acquiring call (k = IN.tp.fail_at, symbolic)
 * fails with a documented errno.
 *
 * Threads: a created thread runs its whole tp_thread_proc() as ONE nested call, either when the history says so ('r') or
 * inside pthread_join() (then the joiner is blocked, so a worker that ends up waiting in epoll_wait() with an empty queue
 * and state RUNNING can never finish: reported as "join never returns").  A thread that would have to wait first lets
 * every created-but-not-yet-run thread run (nested) and then polls again (epoll_wait -> EINTR); a history in which an
 * explicitly run thread still has to wait is not representable and is cut (see META["outside"]).
 *
 * HIST: string of operations (concrete shape), executed after a successful tp_create:
 *   c  tp_threads_create(tp, 0)            k  tp_threads_create(tp, 1)  (skip_first)
 *   a  tp_thread_attach_first(tp)          (the caller becomes thread 0 until the pool shuts down)
 *   m  queue an ordinary message for thread PTHR        p  ask thread PTHR to call tp_shutdown() from its callback
 *   r  run thread RTHR (whole tp_thread_proc)           s  tp_shutdown(tp) from outside
 *   w  tp_shutdown_wait(tp)                d  tp_destroy(tp)
 * A final tp_destroy() is issued if the history did not destroy the pool.
 */
#include "verif.h"
#include "common/tp/pre.h"

#ifndef HIST
#define HIST ""
#endif
#ifndef PTHR
#define PTHR 0
#endif
#ifndef RTHR
#define RTHR 0
#endif
#define NHIST	(sizeof(HIST) - 1)

struct in_s {
	struct tp_in_s	tp;
	uint8_t		pc_res[NTHR + 2];	/* pthread_create: 0 ok, 1 EAGAIN (retried by pthread_create_eagain), 2 EPERM */
	uint8_t		use_hooks;		/* settings carry start/stop hooks */
	uint8_t		bind_cpu;		/* TP_S_F_BIND2CPU (only when the job is built with -DBIND) */
};
#include "verif_in.h"

#ifdef PCFAIL	/* concrete shape: bit i = the i-th pthread_create() fails with EPERM */
#define V_PC_RESULT(i)	((((PCFAIL) >> (i)) & 1) ? 2 : 0)
#else
#define V_PC_RESULT(i)	(IN.pc_res[(i)] % 3)
#endif
#ifdef WFAIL	/* concrete shape: bit i = the i-th write() fails with EAGAIN */
#define V_WRES(i)	((((WFAIL) >> (i)) & 1) ? 1 : 0)
#endif

static int h_block(void);
#define V_EW_BLOCK()	h_block()
#define V_HAVE_JOIN	1
static int h_pthread_join(int slot);
#define V_HAVE_THREAD_CREATED	1
static void h_thread_created(int slot);

#include "threadpool/threadpool.c"
#include "c11_msg_sys_unicast.c"	/* verbatim slice (gen.py): broadcast and async-op functions dropped */

static void env_move(int point, const void *obj) { (void)point; (void)obj; }
#include "common/tp/post.h"

/* ---- ghost ---- */
static tp_p	tp = (tp_p)0;
static int	destroyed, after_destroy_cb;
static int	run_ctx;			/* 0 none, 1 explicit run / attach, 2 inside pthread_join */
static int	join_never_returns;
static int	hook_start[NTHR + 1], hook_stop[NTHR + 1], hook_unbalanced, hook_foreign;
static tpt_p	hook_started[NTHR + 2];		/* tpt pointers whose start hook ran and whose stop hook did not yet */
static int	n_msg_cb, n_req_cb, edeadlk_ok = 1;
static size_t	thr_num_of_slot[NTHR];	/* recorded at pthread_create time (the pool object is gone after tp_destroy) */

static int hook_stop_raw[NTHR + 1];	/* every stop-hook invocation, balanced or not */
static void
h_on_start(tpt_p tpt) {
	if (destroyed) after_destroy_cb ++;
	int placed = 0;
	for (int i = 0; i < NTHR + 2; i ++) {
		if (!placed && NULL == hook_started[i]) {
			hook_started[i] = tpt;
			placed = 1;
		}
	}
	size_t n = tpt_get_num(tpt);
	for (int k = 0; k <= NTHR; k ++) {
		if (n == (size_t)k)
			hook_start[k] ++;
	}
	if (n > NTHR) hook_foreign ++;
}
static void
h_on_stop(tpt_p tpt) {
	if (destroyed) after_destroy_cb ++;
	{
		size_t n0 = tpt_get_num(tpt);
		if (n0 <= (size_t)NTHR) hook_stop_raw[n0] ++;
	}
	int found = 0;
	for (int i = 0; i < NTHR + 2; i ++) {
		if (!found && tpt == hook_started[i]) {
			hook_started[i] = NULL;
			found = 1;
		}
	}
	if (!found)
		hook_unbalanced ++;	/* stop hook for a thread whose start hook never ran */
	else {
		size_t n = tpt_get_num(tpt);
		for (int k = 0; k <= NTHR; k ++) {
			if (n == (size_t)k)
				hook_stop[k] ++;
		}
	}
}

static int shutdown_write_failed;
static int shutdown_called;	/* tp_shutdown() has been called from outside the pool */
static void
do_shutdown(tp_p p) {
	int before = v_n_write_fail;
	shutdown_called = 1;
	tp_shutdown(p);
	if (v_n_write_fail != before)
		shutdown_write_failed = 1;
}

static void
cb_msg(tpt_p tpt, void *udata) {
	(void)tpt; (void)udata;
	if (destroyed) after_destroy_cb ++;
	n_msg_cb ++;
}
static void
cb_req_shutdown(tpt_p tpt, void *udata) { /* runs on a pool thread */
	(void)udata;
	if (destroyed) after_destroy_cb ++;
	n_req_cb ++;
	tp_p p = tpt_get_tp(tpt);
	do_shutdown(p);
	if (EDEADLK != tp_shutdown_wait(p)) edeadlk_ok = 0;
	if (EDEADLK != tp_destroy(p)) edeadlk_ok = 0;
}

static int thr_started[NTHR];
static void run_thread(int slot, int ctx);

static int
h_block(void) { /* a blocking epoll_wait() of a worker finds nothing */
	/* Other threads that were created but did not run yet are live: let them run first (they may send the message this
	 * one waits for), then report EINTR so that tpt_loop polls again. */
	int progressed = 0;
	for (int i = 0; i < NTHR; i ++) {
		if (v_thr[i].created && !thr_started[i]) {
			run_thread(i, 1);
			progressed = 1;
		}
	}
	if (progressed) {
		v_ew_budget ++;	/* the interrupted wait does not count as a dispatch */
		errno = EINTR;
		return (-1);
	}
	if (2 == run_ctx) {
#ifdef KF_SHUTDOWN_MSG_LOST	/* known finding: tp_shutdown ignores a failed queue write; only that cause is blocked */
		if (shutdown_write_failed) {
			V_WITNESS("known-finding path: shutdown message lost, join would never return");
			H_STOP("known finding: shutdown message lost");
		}
#endif
		join_never_returns ++;
		V_ASSERT(0, "pthread_join() in tp_shutdown_wait returns: the joined worker does not wait forever in its loop");
	} else if (1 == run_ctx && shutdown_called) {
		/* the caller of tp_thread_attach_first() serves a pool that was shut down before it attached: the shutdown
		 * message was sent before this thread existed, nobody will ever wake it (seeded change C11-attach-after-shutdown) */
		V_ASSERT(0, "tp_thread_attach_first() on a pool that is already shut down returns instead of serving forever");
	} else {
		H_STOP("an explicitly scheduled thread would have to wait: history not representable in the nested-call model");
	}
	errno = EBADF;	/* leave the loop so that the run ends */
	return (-1);
}

static void
run_thread(int slot, int ctx) {
	struct v_thr_s *th = &v_thr[slot];
	int save_cur = v_cur, save_ctx = run_ctx, save_budget = v_ew_budget;
	V_ASSERT(tp_thread_proc == th->fn, "threads are created with tp_thread_proc");
	thr_started[slot] = 1;
	size_t n = thr_num_of_slot[slot];
	for (int k = 0; k < NTHR; k ++) {
		if (n != (size_t)k)
			continue;
		v_cur = k;
		run_ctx = ctx;
		v_ew_budget = 6;
		v_ew_only = -1;
		v_ew_pick = 0;
		tp_thread_proc(tp_thread_get(tp, (size_t)k));
		V_ASSERT(v_ew_budget > 0, "BUDGET dispatches of one thread run");
	}
	th->finished = 1;
	v_cur = save_cur;
	run_ctx = save_ctx;
	v_ew_budget = save_budget;
}

static int
h_pthread_join(int slot) {
	if (!thr_started[slot])
		run_thread(slot, 2);
	V_ASSERT(v_thr[slot].finished, "sequential model: a joined thread is not suspended further down the call stack");
	return (0);
}

static void
h_thread_created(int slot) {
	thr_num_of_slot[slot] = tpt_get_num((tpt_p)v_thr[slot].arg);
}
static int
slot_of_thread(int t) {
	int r = -1;
	for (int i = 0; i < NTHR; i ++) {
		if (v_thr[i].created && thr_num_of_slot[i] == (size_t)t)
			r = i;
	}
	return (r);
}

#define SENTINEL	((tp_p)(uintptr_t)0x5a5a)

void
harness(void) {
	V_BEGIN();
	tp_settings_t s;
	int r, t;

	memset(&s, 0, sizeof(s));
	s.threads_max = NTHR;
#ifdef BIND
	s.flags = IN.bind_cpu ? TP_S_F_BIND2CPU : 0;
#endif
	/* bit 0: start hook installed, bit 1: stop hook installed (all four settings; the seeded change
	 * C11-pvt-running-only-with-start-hook needs "stop hook only") */
	if (IN.use_hooks & 1)
		s.tpt_on_start = h_on_start;
	if (IN.use_hooks & 2)
		s.tpt_on_stop = h_on_stop;
	tp = SENTINEL;
#ifdef CREATE_FAILS
	V_ASSUME(IN.tp.fail_at >= 0);
	V_ASSUME(0 != IN.tp.ncpu);
	r = tp_create(&s, &tp);
	if (!v_fault_hit) {	/* k beyond the number of acquisitions: creation succeeds */
		V_ASSERT(0 == r && SENTINEL != tp, "tp_create succeeds when no acquisition fails");
		V_WITNESS("k beyond the last acquisition");
		return;
	}
	V_ASSERT(0 != r, "tp_create reports an error when an acquisition failed");
	V_ASSERT(SENTINEL == tp, "failed tp_create leaves *ptp untouched");
	V_ASSERT(0 == v_live_fds, "failed tp_create: every descriptor closed again");
	V_ASSERT(0 == v_live_allocs, "failed tp_create: every allocation freed again");
	V_ASSERT(0 == v_live_threads, "failed tp_create: no thread left");
#ifndef KF_PVT_STOP_HOOK
	if (3 == (IN.use_hooks & 3))	/* "unbalanced" is only defined when both hooks are installed */
		V_ASSERT(0 == hook_unbalanced, "failed tp_create: no stop hook for a thread whose start hook never ran");
#endif
	for (t = 0; t <= NTHR; t ++)
		V_ASSERT(3 != (IN.use_hooks & 3) || (hook_start[t] == hook_stop[t] && hook_start[t] <= 1), "failed tp_create: start/stop hooks balanced, at most once");
	V_ASSERT(0 == hook_foreign, "hooks are called with pool threads");
	V_WITNESS("creation failed and was unwound");
	if (hook_start[NTHR] > 0) V_WITNESS("failure after the virtual thread had started");
	return;
#else
	V_ASSUME(IN.tp.fail_at < 0);
	V_ASSUME(0 != IN.tp.ncpu);
	r = tp_create(&s, &tp);
	V_ASSERT(0 == r && SENTINEL != tp, "tp_create succeeds when every resource is available");
	V_ASSERT(!(IN.use_hooks & 1) || (1 == hook_start[NTHR] && 0 == hook_stop[NTHR]), "virtual thread: start hook once at creation");

	for (size_t i = 0; i < NHIST; i ++) {
		char op = HIST[i];
		if (destroyed)
			break;
		if ('c' == op || 'k' == op) {
			r = tp_threads_create(tp, 'k' == op);
			V_ASSERT(0 == r || EBUSY == r, "tp_threads_create: 0, or EBUSY after shutdown");
			if (0 == r) {	/* a worker whose pthread_create() failed must not be reported as running (sends to it would be lost) */
	/* (no do/while(0) wrapper: cbmc numbers it as a loop and the per-job unwindset names harness loops by number) */
#define CHK_NOT_RUNNING(t) if (slot_of_thread(t) < 0 && !('k' == op && 0 == (t))) \
	{ V_ASSERT(0 == tpt_is_running(tp_thread_get(tp, (size_t)(t))), "a worker whose thread could not be created is not reported as running"); }
				CHK_NOT_RUNNING(0);
#if NTHR > 1
				CHK_NOT_RUNNING(1);
#endif
#if NTHR > 2
				CHK_NOT_RUNNING(2);
#endif
			}
		} else if ('a' == op) {
			int save = run_ctx, sb = v_ew_budget;
			run_ctx = 1;
			v_ew_budget = 6;
			v_ew_only = -1;
			r = tp_thread_attach_first(tp);	/* the calling thread serves as thread 0 until shutdown */
			run_ctx = save;
			v_ew_budget = sb;
			V_ASSERT(0 == r || EBUSY == r || ESPIPE == r, "tp_thread_attach_first: 0, EBUSY after shutdown, ESPIPE if thread 0 runs");
		} else if ('m' == op || 'p' == op) {
			tpt_p dst = tp_thread_get(tp, PTHR);
			(void)tpt_msg_send(dst, NULL, 0, ('m' == op) ? cb_msg : cb_req_shutdown, NULL);
		} else if ('r' == op) {
			int slot = slot_of_thread(RTHR);
			if (slot >= 0 && !thr_started[slot])
				run_thread(slot, 1);
		} else if ('s' == op) {
			do_shutdown(tp);
		} else if ('w' == op) {
			r = tp_shutdown_wait(tp);
			V_ASSERT(0 == r || EBUSY == r, "tp_shutdown_wait from outside: 0, or EBUSY before shutdown");
		} else if ('d' == op) {
			do_shutdown(tp);	/* tp_destroy() starts with tp_shutdown(); issued here so that a refused write is attributed */
			r = tp_destroy(tp);
			V_ASSERT(0 == r, "tp_destroy from outside the pool succeeds");
			destroyed = 1;
		}
	}
	if (!destroyed) {
		do_shutdown(tp);
		r = tp_destroy(tp);
		V_ASSERT(0 == r, "tp_destroy from outside the pool succeeds");
		destroyed = 1;
	}

	V_ASSERT(1 == edeadlk_ok, "tp_shutdown_wait / tp_destroy from a pool thread report EDEADLK");
	V_ASSERT(0 == after_destroy_cb, "no callback or hook after tp_destroy returned");
	V_ASSERT(0 == v_live_fds, "after tp_destroy: every descriptor closed");
	V_ASSERT(0 == v_live_allocs, "after tp_destroy: every allocation freed");
	for (t = 0; t < NTHR; t ++) {
		int slot = slot_of_thread(t);
		if (slot >= 0)
			V_ASSERT(v_thr[slot].finished, "after tp_destroy: every created thread has terminated");
	}
#ifndef KF_EXITED_THREAD_NOT_JOINED
	V_ASSERT(0 == v_live_threads, "after tp_destroy: every created thread was joined (released)");
#endif
	if (2 == (IN.use_hooks & 3)) {
		V_ASSERT(1 == hook_stop_raw[NTHR], "stop hook only: the virtual thread's stop hook runs exactly once");
		V_WITNESS("stop hook only");
	}
	if (3 == (IN.use_hooks & 3)) {
		V_ASSERT(1 == hook_start[NTHR] && 1 == hook_stop[NTHR], "virtual thread: start and stop hook exactly once");
		for (t = 0; t < NTHR; t ++) {
			V_ASSERT(hook_start[t] == hook_stop[t] && hook_start[t] <= 1, "worker: start and stop hook exactly once if it ran");
			int slot = slot_of_thread(t);
			if (slot >= 0)
				V_ASSERT(1 == hook_start[t], "a created thread ran its hooks");
		}
		V_ASSERT(0 == hook_unbalanced && 0 == hook_foreign, "hooks balanced and called with pool threads");
	}
	V_WITNESS("life cycle complete");
	if (n_req_cb > 0) V_WITNESS("shutdown issued from a pool thread");
	if (n_msg_cb > 0) V_WITNESS("in-flight message delivered before exit");
	if (v_live_threads > 0) V_WITNESS("thread exited before the wait");
	if (v_n_thr > 0 && v_n_thr < NTHR) V_WITNESS("some thread could not be created");
#endif
}
