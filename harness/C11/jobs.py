import os

NO_KF = set(os.environ.get("C11_NO_KF", "").split(","))    # e.g. C11_NO_KF=KF_PVT_STOP_HOOK,KF_SHUTDOWN_MSG_LOST or "all"

META = {
    "level": "fault_enumeration",
    "bounds": "pools of 1, 2 and 3 threads (+ the virtual thread); tp_create with the k-th resource acquiring call failing, k a "
              "solver variable over every call (pthread_key_create, calloc of the pool, and per thread epoll_create1, calloc and "
              "pipe2 of the queue, epoll_ctl ADD of the queue, epoll_ctl ADD of the virtual thread's epoll) and its errno "
              "variant; success path followed by an enumerated history of <= 6 operations from {threads_create (with/without "
              "skip_first), attach_first, queue a message, ask a pool thread to call tp_shutdown (+ tp_shutdown_wait/tp_destroy "
              "-> EDEADLK), run a thread, shutdown, shutdown_wait, destroy, repeated shutdown/wait}, for every subset of failing "
              "pthread_create calls (EPERM; 2 threads) and selected positions of a refused queue write; hooks present or absent "
              "(solver variable); <= 3 packets per read() (TPT_MSG_COUNT_TO_READ=3 under the LIBLCB_VERIF hook)",
    "outside": "true concurrency: every thread runs its whole tp_thread_proc as one nested call (when the history says so, "
               "when another thread would have to wait for it, or inside pthread_join) - concurrent tp_shutdown calls, destruction "
               "racing with senders, the unsynchronised threads_cnt++/--, and termination under fair schedules are NOT claimed; "
               "'deadlock' is only the bounded sequential notion: the joined worker waits in epoll_wait with an empty queue, "
               "state RUNNING and no other thread left to run; calling tp_threads_create twice, tp_destroy twice (use of a freed "
               "pool by the caller), timer/process/socket events pending at shutdown (C06/C16), pools > 3 threads, "
               "tp_create(NULL settings) / threads_max = 0 (size of the pool then depends on sysconf)",
    "assumptions": [
        "resource ledger and fault injection of common/tp/post.h: descriptors are never reused (double close is flagged), "
        "failing calls set errno != 0, successful close()/free() leave errno alone, close(-1) is a harmless EBADF",
        "a thread = one nested call of the real tp_thread_proc; a thread that would block first lets every created-but-not-yet-run "
        "thread run, then its epoll_wait reports EINTR and polls again",
        "pipe / epoll model as in C05 (atomic 32-byte writes, FIFO, capacity 3, level-triggered epoll)",
        "pthread_create fails only with EPERM in the enumerated positions (EAGAIN retries of pthread_create_eagain are not exercised)",
        "--no-malloc-may-fail (allocation failure is injected by the model only)",
        "verbatim slice of threadpool_msg_sys.c (gen.py): broadcast and async-op functions dropped",
        "explicit_bzero redirected to memset; syslog/snprintf/sigmask/affinity/setname stubs do nothing; sysconf reports IN.tp.ncpu CPUs",
        "KF_PVT_STOP_HOOK / KF_EXITED_THREAD_NOT_JOINED / KF_SHUTDOWN_MSG_LOST: known findings (findings/*.md); each define disables "
        "exactly one assertion / one blocked cause while in force",
    ],
    "harness_functions": ["harness", "h_on_start", "h_on_stop", "cb_msg", "cb_req_shutdown", "do_shutdown", "h_block", "run_thread",
                          "h_pthread_join", "h_thread_created", "slot_of_thread", "env_move"],
}


def unwindset(nthr, create=False):
    n = nthr + 2
    us = ["memmem.0:1", "memmem.1:1", "tpt_msg_recv_and_process.2:1", "tpt_msg_recv_and_process.0:2",
            "tpt_msg_recv_and_process.1:5", "tpt_msg_recv_and_process:0", "tpt_loop.0:8", "tp_create.3:%d" % (n + 1),
            "tp_threads_create.0:%d" % (n + 1), "tp_shutdown.0:%d" % (n + 1), "tp_shutdown_wait.0:%d" % (n + 1),
            "tp_shutdown_wait.1:2", "tp_destroy.0:%d" % (n + 1), "tp_thread_count_get.0:%d" % (n + 1), "strlen.0:4",
            "pthread_create_eagain.0:5", "memcmp.0:10", "v_close.0:4", "v_close.1:%d" % (n + 2), "v_read.0:5",
            "harness.0:%d" % (n + 2), "harness.1:12", "harness.2:%d" % (n + 2), "harness.3:%d" % (n + 2), "harness.4:%d" % (n + 2),
            "h_on_start.0:%d" % (n + 3), "h_on_start.1:%d" % (n + 2), "h_on_stop.0:%d" % (n + 3), "h_on_stop.1:%d" % (n + 2),
            "run_thread.0:%d" % (n + 1), "slot_of_thread.0:%d" % (n + 1), "h_block.0:%d" % (n + 1),
            "tp_shutdown:2", "tp_destroy:2", "tp_shutdown_wait:2", "tpt_msg_send:3",
            "tp_thread_proc:%d" % nthr, "tpt_loop:%d" % nthr]
    if not create:      # harness functions that exist only in the life-cycle build (unknown recursion ids are an error)
        us += ["run_thread:%d" % nthr, "do_shutdown:2", "h_block:%d" % nthr]
    return us


def kf(defs, name):
    if True:    # all three C11 findings were repaired in /repo (known_findings.json: fixed)
        return
    defs[name] = None


def create_job(nthr, tier):
    defs = {"NTHR": nthr, "CREATE_FAILS": None, "TPT_MSG_COUNT_TO_READ": 3, "V_QCAP": 3}
    kf(defs, "KF_PVT_STOP_HOOK")
    return {"name": "create-fail-t%d" % nthr, "src": "life.c", "defs": defs, "unwind": 3, "unwindset": unwindset(nthr, True),
            "solver": "cadical", "flags": ["--no-malloc-may-fail"], "timeout": 400 if tier == "quick" else 1500, "mem_gb": 10,
            "shape": "threads=%d(+virtual); failing acquisition index k and errno variant symbolic" % nthr,
            "desc": "k-th acquisition fails => tp_create != 0, *ptp untouched, no descriptor / allocation / thread left, hooks balanced"}


def life_job(nthr, hist, pthr=0, rthr=0, pcfail=0, wfail=0, tier="quick"):
    defs = {"NTHR": nthr, "HIST": '"%s"' % hist, "PTHR": pthr, "RTHR": rthr, "PCFAIL": pcfail, "WFAIL": wfail,
            "V_NO_FAULTS": None, "TPT_MSG_COUNT_TO_READ": 3, "V_QCAP": 3}
    kf(defs, "KF_EXITED_THREAD_NOT_JOINED")
    kf(defs, "KF_SHUTDOWN_MSG_LOST")
    return {"name": "life-t%d-%s-p%d-r%d-c%d-w%d" % (nthr, hist, pthr, rthr, pcfail, wfail), "src": "life.c", "defs": defs,
            "unwind": 3, "unwindset": unwindset(nthr), "solver": "cadical", "flags": ["--no-malloc-may-fail"],
            "timeout": 400 if tier == "quick" else 1500, "mem_gb": 10,
            "shape": "threads=%d(+virtual) history=%s message/request thread=%d run thread=%d failing-pthread_create-mask=%d "
                     "refused-write-mask=%d" % (nthr, hist, pthr, rthr, pcfail, wfail),
            "desc": "return codes, EDEADLK from pool threads, hooks exactly once per started thread incl. the virtual thread, no "
                    "callback after destroy, every created thread terminated and joined, ledger empty after tp_destroy"}


HISTS = [("d", 0, 0), ("cd", 0, 0), ("csd", 0, 0), ("cswd", 0, 0), ("csswwd", 0, 0), ("cwsd", 0, 0), ("kd", 0, 0),
         ("cmd", 0, 0), ("cmsd", 1, 0), ("cpd", 0, 0), ("cprd", 0, 0), ("cprwd", 1, 1), ("csrd", 0, 0), ("csrwd", 0, 1),
         ("kpawd", 1, 0), ("csad", 0, 0), ("cmprd", 0, 0), ("ksd", 0, 0),
         ("ksad", 0, 0)]    # shutdown beats the main thread's attach_first: must be refused (seeded change C11-attach-after-shutdown)


def jobs(tier):
    out = [create_job(2, tier), create_job(1, tier)]
    for h, p, r in HISTS:
        out.append(life_job(2, h, p, r, tier=tier))
    out += [life_job(2, "csd", pcfail=1, tier=tier), life_job(2, "cprwd", 1, 1, pcfail=1, tier=tier),
            life_job(2, "cd", pcfail=3, tier=tier), life_job(2, "csd", wfail=1, tier=tier), life_job(2, "cmsd", 0, 0, wfail=2, tier=tier),
            life_job(1, "csd", tier=tier), life_job(1, "cpd", 0, 0, tier=tier), life_job(3, "csd", tier=tier),
            life_job(3, "cprwd", 2, 1, tier=tier)]
    if tier == "quick":
        return out
    out.append(create_job(3, tier))
    seen = set(j["name"] for j in out)
    # Thorough: every history x message/run thread for 2 and 3 threads with all threads created; failing pthread_create masks
    # and refused writes only for histories that do not address a particular thread (a history that runs / messages a thread
    # which was never created, or whose explicitly run thread would have to wait, is cut by the nested-call model and would be
    # vacuous - the first full run of the unrestricted product had 170 such shapes, no violation).
    for nthr in (2, 3):
        for h, p, r in HISTS:
            addressed = any(c in h for c in "pmra")
            for pthr in range(nthr):
                for rthr in range(nthr):
                    if ("p" not in h and "m" not in h and pthr) or ("r" not in h and rthr):
                        continue
                    if "a" in h and (pthr != 1 or nthr != 2):
                        continue
                    combos = [(0, 0)]
                    if not addressed:
                        combos += [(pc, wf) for pc in ((1, 2, 3) if nthr == 2 else (2, 5)) for wf in (0, 1)] + [(0, 1), (0, 2)]
                    for pc, wf in combos:
                        j = life_job(nthr, h, pthr, rthr, pc, wf, tier=tier)
                        if j["name"] not in seen:
                            seen.add(j["name"])
                            out.append(j)
    return out
