#!/usr/bin/env python3
"""gen.py <outdir> <repo>: verbatim slice of threadpool_msg_sys.c for the life-cycle harness (see common/tp/slice.py):
   broadcast and async-op functions dropped; queue create/destroy, tpt_msg_send, tpt_msg_recv_and_process kept."""
import sys, os
sys.path.insert(0, os.path.join(os.path.dirname(os.path.abspath(__file__)), "..", "common", "tp"))
import slice as S
out, repo = sys.argv[1], sys.argv[2]
src = os.path.join(repo, "src", "threadpool", "threadpool_msg_sys.c")
S.slice_unit(src, S.MSG_BCAST + S.MSG_AOP, os.path.join(out, "c11_msg_sys_unicast.c"), src)
