/* CBMC-only bodies for libc functions cbmc 6.11 ships no model for. Environment stubs: part of every claim that reaches
 * them (straightforward transcriptions of the man-page contracts). Natively (-DREPLAY) the real libc is used. */
#ifndef LIBC_MODELS_H
#define LIBC_MODELS_H
#ifndef REPLAY
#include <stddef.h>
void *memchr(const void *s, int c, size_t n) {
	const unsigned char *p = (const unsigned char *)s;
	for (size_t i = 0; i < n; i++)
		if (p[i] == (unsigned char)c) return ((void *)(p + i));
	return ((void *)0);
}
void *memrchr(const void *s, int c, size_t n) {
	const unsigned char *p = (const unsigned char *)s;
	for (size_t i = n; i > 0; i--)
		if (p[i - 1] == (unsigned char)c) return ((void *)(p + i - 1));
	return ((void *)0);
}
void *memmem(const void *h, size_t hn, const void *nd, size_t nn) {
	const unsigned char *hp = (const unsigned char *)h, *np = (const unsigned char *)nd;
	if (nn == 0) return ((void *)h);
	if (nn > hn) return ((void *)0);
	for (size_t i = 0; i + nn <= hn; i++) {
		size_t j = 0;
		while (j < nn && hp[i + j] == np[j]) j++;
		if (j == nn) return ((void *)(hp + i));
	}
	return ((void *)0);
}
size_t strnlen(const char *s, size_t maxlen) {
	size_t i = 0;
	while (i < maxlen && s[i] != 0) i++;
	return (i);
}
void explicit_bzero(void *s, size_t n) {
	unsigned char *p = (unsigned char *)s;
	for (size_t i = 0; i < n; i++) p[i] = 0;
}
#endif
#endif
