/* Included by a harness right after it defined `struct in_s`. */
#ifndef VERIF_IN_H
#define VERIF_IN_H
#ifdef REPLAY
struct in_s IN =
#include REPLAY_VALUES
;
void harness(void);
int main(void) {
	harness();
	printf("REPLAY-DONE no assertion failed\n");
	return (0);
}
#else
struct in_s IN;
struct in_s nondet_in_s(void);
#define V_BEGIN() do { IN = nondet_in_s(); } while (0)
#endif
#endif
