/*
 * verif.h - conventions shared by every CBMC harness in /verif/harness.
 *
 * Every harness:
 *   - defines `struct in_s { ... }` holding ALL its symbolic inputs (no pointers),
 *   - then `#include "verif_in.h"` (declares the global IN),
 *   - has an entry `void harness(void)` that starts with V_BEGIN().
 *
 * Under CBMC: IN is one nondeterministic struct value (the solver's variables),
 *   V_ASSERT  -> property "PROP ..."   (must be SUCCESS),
 *   V_WITNESS -> property "WITNESS ..." (reachability witness; at least one per job must be FAILURE),
 *   V_WITNESS_MUST -> property "WITNESS! ..." (must be FAILURE = reachable in every shape),
 *   V_ASSUME  -> __CPROVER_assume.
 * Under -DREPLAY (native clang + ASan/UBSan): IN is initialised from the
 *   counterexample the solver produced; V_ASSERT prints "REPLAY-FAIL <msg>" and
 *   exits 1, V_ASSUME exits 3 when not met (the counterexample must satisfy it).
 */
#ifndef VERIF_H
#define VERIF_H

#include <stddef.h>
#include <stdint.h>
#include <stdlib.h>
#include <string.h>

#ifdef REPLAY
#include <stdio.h>
#define V_ASSUME(c) do { if (!(c)) { \
	printf("REPLAY-ASSUME-NOT-MET %s:%d %s\n", __FILE__, __LINE__, #c); \
	fflush(stdout); exit(3); } } while (0)
#define V_ASSERT(c, msg) do { if (!(c)) { \
	printf("REPLAY-FAIL PROP %s\n", msg); fflush(stdout); exit(1); } } while (0)
#define V_WITNESS(msg) do { } while (0)
#define V_WITNESS_MUST(msg) do { } while (0)
#define V_BEGIN() do { } while (0)
#define V_IS_CBMC 0
/* Exactly sized heap object: ASan red zones make any overrun visible. */
static inline void *v_alloc(size_t n) {
	void *p = malloc(n ? n : 1);
	if (!p) { exit(4); }
	return ((n ? p : (void *)((char *)p + 1))); /* n == 0: one-past pointer of a 1-byte object */
}
#else
#define V_ASSUME(c) __CPROVER_assume(c)
#define V_ASSERT(c, msg) __CPROVER_assert((c), "PROP " msg)
#define V_WITNESS(msg) __CPROVER_assert(0, "WITNESS " msg)
#define V_WITNESS_MUST(msg) __CPROVER_assert(0, "WITNESS! " msg)
#define V_IS_CBMC 1
static inline void *v_alloc(size_t n) {
	void *p = malloc(n ? n : 1);
	__CPROVER_assume(p != 0);
	return ((n ? p : (void *)((char *)p + 1)));
}
#endif

#include "libc_models.h"

/* Copy n symbolic bytes from IN into an exactly sized heap object. */
static inline uint8_t *v_buf(const void *src, size_t n) {
	uint8_t *p = (uint8_t *)v_alloc(n);
	if (n) { memcpy(p, src, n); }
	return (p);
}

#endif /* VERIF_H */
